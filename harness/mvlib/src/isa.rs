//! Reference model of the legal MOS 6502 instruction set, *generated from the opcode bit
//! structure* (aaabbbcc groups + the regular single-byte columns), not transcribed from the
//! assembler's table. 151 legal opcodes.

use std::collections::BTreeMap;

#[derive(Clone, Copy, Debug, PartialEq, Eq, Hash, PartialOrd, Ord)]
pub enum Mode {
    Imp,
    Acc,
    Imm,
    Zp,
    ZpX,
    ZpY,
    Abs,
    AbsX,
    AbsY,
    IndX,
    IndY,
    Ind,
    Rel,
}

impl Mode {
    pub fn operand_len(self) -> usize {
        match self {
            Mode::Imp | Mode::Acc => 0,
            Mode::Abs | Mode::AbsX | Mode::AbsY | Mode::Ind => 2,
            _ => 1,
        }
    }
}

/// Syntactic operand forms of the assembler's source language.
#[derive(Clone, Copy, Debug, PartialEq, Eq, Hash, PartialOrd, Ord)]
pub enum Form {
    /// no operand
    Implied,
    /// `#v`
    Imm,
    /// `v`
    Plain,
    /// `v,x`
    PlainX,
    /// `v,y`
    PlainY,
    /// `(v,x)`
    IndX,
    /// `(v),y`
    IndY,
    /// `(v)`
    Ind,
    /// `(v,y)` – never legal
    IndYInner,
    /// `(v),x` – never legal
    IndXOuter,
}

pub const FORMS: [Form; 10] = [
    Form::Implied,
    Form::Imm,
    Form::Plain,
    Form::PlainX,
    Form::PlainY,
    Form::IndX,
    Form::IndY,
    Form::Ind,
    Form::IndYInner,
    Form::IndXOuter,
];

impl Form {
    pub fn name(self) -> &'static str {
        match self {
            Form::Implied => "implied",
            Form::Imm => "#v",
            Form::Plain => "v",
            Form::PlainX => "v,x",
            Form::PlainY => "v,y",
            Form::IndX => "(v,x)",
            Form::IndY => "(v),y",
            Form::Ind => "(v)",
            Form::IndYInner => "(v,y)",
            Form::IndXOuter => "(v),x",
        }
    }

    /// Renders the operand with `v` as the operand text and the given register spelling.
    pub fn render(self, v: &str, upper_reg: bool) -> String {
        let (x, y) = if upper_reg { ("X", "Y") } else { ("x", "y") };
        match self {
            Form::Implied => String::new(),
            Form::Imm => format!("#{}", v),
            Form::Plain => v.to_string(),
            Form::PlainX => format!("{},{}", v, x),
            Form::PlainY => format!("{},{}", v, y),
            Form::IndX => format!("({},{})", v, x),
            Form::IndY => format!("({}),{}", v, y),
            Form::Ind => format!("({})", v),
            Form::IndYInner => format!("({},{})", v, y),
            Form::IndXOuter => format!("({}),{}", v, x),
        }
    }
}

pub const MNEMONICS: [&str; 56] = [
    "adc", "and", "asl", "bcc", "bcs", "beq", "bit", "bmi", "bne", "bpl", "brk", "bvc", "bvs",
    "clc", "cld", "cli", "clv", "cmp", "cpx", "cpy", "dec", "dex", "dey", "eor", "inc", "inx",
    "iny", "jmp", "jsr", "lda", "ldx", "ldy", "lsr", "nop", "ora", "pha", "php", "pla", "plp",
    "rol", "ror", "rti", "rts", "sbc", "sec", "sed", "sei", "sta", "stx", "sty", "tax", "tay",
    "tsx", "txa", "txs", "tya",
];

pub const BRANCHES: [&str; 8] = ["bpl", "bmi", "bvc", "bvs", "bcc", "bcs", "bne", "beq"];

pub fn is_branch(m: &str) -> bool {
    BRANCHES.contains(&m)
}

#[derive(Clone, Debug)]
pub struct Isa {
    /// (mnemonic, mode) -> opcode
    pub rows: BTreeMap<(&'static str, Mode), u8>,
}

#[derive(Clone, Debug, PartialEq, Eq)]
pub enum Expect {
    Bytes(Vec<u8>),
    Reject,
    /// outside what the property states (operand above 65535 on an absolute form)
    Unspecified,
}

impl Isa {
    pub fn new() -> Isa {
        let mut rows: BTreeMap<(&'static str, Mode), u8> = BTreeMap::new();
        let mut add = |m: &'static str, mode: Mode, op: u8| {
            let prev = rows.insert((m, mode), op);
            assert!(prev.is_none(), "duplicate row {} {:?}", m, mode);
        };
        // cc = 01
        let g1 = ["ora", "and", "eor", "adc", "sta", "lda", "cmp", "sbc"];
        let g1_modes = [
            Mode::IndX,
            Mode::Zp,
            Mode::Imm,
            Mode::Abs,
            Mode::IndY,
            Mode::ZpX,
            Mode::AbsY,
            Mode::AbsX,
        ];
        for (a, m) in g1.iter().enumerate() {
            for (b, mode) in g1_modes.iter().enumerate() {
                if *m == "sta" && *mode == Mode::Imm {
                    continue;
                }
                add(m, *mode, ((a as u8) << 5) | ((b as u8) << 2) | 1);
            }
        }
        // cc = 10
        let g2 = ["asl", "rol", "lsr", "ror", "stx", "ldx", "dec", "inc"];
        for (a, m) in g2.iter().enumerate() {
            for b in 0..8u8 {
                let mode = match b {
                    0 => Mode::Imm,
                    1 => Mode::Zp,
                    2 => Mode::Acc,
                    3 => Mode::Abs,
                    5 => {
                        if *m == "stx" || *m == "ldx" {
                            Mode::ZpY
                        } else {
                            Mode::ZpX
                        }
                    }
                    7 => {
                        if *m == "ldx" {
                            Mode::AbsY
                        } else {
                            Mode::AbsX
                        }
                    }
                    _ => continue,
                };
                let legal = match (*m, mode) {
                    (_, Mode::Imm) => *m == "ldx",
                    (_, Mode::Acc) => a < 4,
                    ("stx", Mode::AbsX) | ("stx", Mode::AbsY) => false,
                    _ => true,
                };
                if legal {
                    add(m, mode, ((a as u8) << 5) | (b << 2) | 2);
                }
            }
        }
        // cc = 00
        let g3: [(&'static str, u8); 6] = [
            ("bit", 1),
            ("jmp", 2),
            ("sty", 4),
            ("ldy", 5),
            ("cpy", 6),
            ("cpx", 7),
        ];
        for (m, a) in g3.iter() {
            for b in [0u8, 1, 3, 5, 7] {
                let mode = match b {
                    0 => Mode::Imm,
                    1 => Mode::Zp,
                    3 => Mode::Abs,
                    5 => Mode::ZpX,
                    _ => Mode::AbsX,
                };
                let legal = match (*m, mode) {
                    ("bit", Mode::Zp) | ("bit", Mode::Abs) => true,
                    ("jmp", Mode::Abs) => true,
                    ("sty", Mode::Zp) | ("sty", Mode::Abs) | ("sty", Mode::ZpX) => true,
                    ("ldy", _) => true,
                    ("cpy", Mode::Imm) | ("cpy", Mode::Zp) | ("cpy", Mode::Abs) => true,
                    ("cpx", Mode::Imm) | ("cpx", Mode::Zp) | ("cpx", Mode::Abs) => true,
                    _ => false,
                };
                if legal {
                    add(m, mode, (a << 5) | (b << 2));
                }
            }
        }
        add("jmp", Mode::Ind, 0x6c);
        // branches xxy10000
        for (i, m) in BRANCHES.iter().enumerate() {
            add(m, Mode::Rel, ((i as u8) << 5) | 0x10);
        }
        add("brk", Mode::Imp, 0x00);
        add("jsr", Mode::Abs, 0x20);
        add("rti", Mode::Imp, 0x40);
        add("rts", Mode::Imp, 0x60);
        let col8 = ["php", "plp", "pha", "pla", "dey", "tay", "iny", "inx"];
        for (i, m) in col8.iter().enumerate() {
            add(m, Mode::Imp, ((i as u8) << 5) | 0x08);
        }
        let col18 = ["clc", "sec", "cli", "sei", "tya", "clv", "cld", "sed"];
        for (i, m) in col18.iter().enumerate() {
            add(m, Mode::Imp, ((i as u8) << 5) | 0x18);
        }
        let cola = ["txa", "txs", "tax", "tsx", "dex"];
        for (i, m) in cola.iter().enumerate() {
            add(m, Mode::Imp, 0x8a + ((i as u8) << 4));
        }
        add("nop", Mode::Imp, 0xea);
        let isa = Isa { rows };
        isa.self_check();
        isa
    }

    fn self_check(&self) {
        assert_eq!(self.rows.len(), 151, "ISA model must have 151 rows");
        let mut seen = std::collections::BTreeSet::new();
        for op in self.rows.values() {
            assert!(seen.insert(*op), "duplicate opcode {:02x}", op);
        }
        for (m, _) in self.rows.keys() {
            assert!(MNEMONICS.contains(m));
        }
        for m in MNEMONICS.iter() {
            assert!(self.rows.keys().any(|(mm, _)| mm == m), "no row for {}", m);
        }
        // a few anchors from the published opcode matrix
        assert_eq!(self.rows[&("lda", Mode::Imm)], 0xa9);
        assert_eq!(self.rows[&("sta", Mode::AbsY)], 0x99);
        assert_eq!(self.rows[&("stx", Mode::ZpY)], 0x96);
        assert_eq!(self.rows[&("sty", Mode::ZpX)], 0x94);
        assert_eq!(self.rows[&("ldx", Mode::AbsY)], 0xbe);
        assert_eq!(self.rows[&("ldy", Mode::AbsX)], 0xbc);
        assert_eq!(self.rows[&("jmp", Mode::Abs)], 0x4c);
        assert_eq!(self.rows[&("nop", Mode::Imp)], 0xea);
        assert_eq!(self.rows[&("lsr", Mode::Acc)], 0x4a);
        assert_eq!(self.rows[&("inc", Mode::AbsX)], 0xfe);
        assert_eq!(self.rows[&("beq", Mode::Rel)], 0xf0);
        assert_eq!(self.rows[&("bcc", Mode::Rel)], 0x90);
        assert_eq!(self.rows[&("tsx", Mode::Imp)], 0xba);
        assert_eq!(self.rows[&("cpx", Mode::Abs)], 0xec);
    }

    pub fn get(&self, m: &str, mode: Mode) -> Option<u8> {
        self.rows
            .iter()
            .find(|((mm, md), _)| *mm == m && *md == mode)
            .map(|(_, op)| *op)
    }

    /// (zero page mode, absolute mode) for a syntactic form
    fn form_modes(form: Form) -> (Option<Mode>, Option<Mode>) {
        match form {
            Form::Implied => (None, None),
            Form::Imm => (Some(Mode::Imm), None),
            Form::Plain => (Some(Mode::Zp), Some(Mode::Abs)),
            Form::PlainX => (Some(Mode::ZpX), Some(Mode::AbsX)),
            Form::PlainY => (Some(Mode::ZpY), Some(Mode::AbsY)),
            Form::IndX => (Some(Mode::IndX), None),
            Form::IndY => (Some(Mode::IndY), None),
            Form::Ind => (None, Some(Mode::Ind)),
            Form::IndYInner | Form::IndXOuter => (None, None),
        }
    }

    /// Is (mnemonic, form) a row of the ISA for some operand value?
    pub fn legal_form(&self, m: &str, form: Form) -> bool {
        if is_branch(m) {
            return form == Form::Plain;
        }
        if form == Form::Implied {
            return self.get(m, Mode::Imp).is_some() || self.get(m, Mode::Acc).is_some();
        }
        let (zp, abs) = Self::form_modes(form);
        zp.map_or(false, |md| self.get(m, md).is_some())
            || abs.map_or(false, |md| self.get(m, md).is_some())
    }

    /// Expected encoding of a non-branch instruction for operand value `v` (v >= 0).
    pub fn encode(&self, m: &str, form: Form, v: u64) -> Expect {
        assert!(!is_branch(m));
        if form == Form::Implied {
            return match self.get(m, Mode::Imp).or_else(|| self.get(m, Mode::Acc)) {
                Some(op) => Expect::Bytes(vec![op]),
                None => Expect::Reject,
            };
        }
        let (zp, abs) = Self::form_modes(form);
        let zp_op = zp.and_then(|md| self.get(m, md));
        let abs_op = abs.and_then(|md| self.get(m, md));
        if zp_op.is_none() && abs_op.is_none() {
            return Expect::Reject;
        }
        if v <= 255 {
            if let Some(op) = zp_op {
                return Expect::Bytes(vec![op, v as u8]);
            }
        }
        match abs_op {
            Some(op) => {
                if v <= 65535 {
                    Expect::Bytes(vec![op, (v & 255) as u8, (v >> 8) as u8])
                } else {
                    Expect::Unspecified
                }
            }
            // only an 8-bit form exists and the value does not fit
            None => Expect::Reject,
        }
    }

    pub fn branch_opcode(&self, m: &str) -> u8 {
        self.get(m, Mode::Rel).unwrap()
    }

    /// Number of legal (mnemonic, syntactic form) rows.
    pub fn legal_form_rows(&self) -> usize {
        let mut n = 0;
        for m in MNEMONICS.iter() {
            for f in FORMS.iter() {
                if self.legal_form(m, *f) {
                    n += 1;
                }
            }
        }
        n
    }
}

impl Default for Isa {
    fn default() -> Self {
        Isa::new()
    }
}
