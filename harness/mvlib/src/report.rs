//! Run context: counters, samples, findings protocol (known / fixed / violation), evidence file.
//!
//! Exit codes: 0 = held on everything explored (KNOWN-FINDING lines possible), 1 = VIOLATION,
//! >= 2 = machinery failure (never a verdict).

use serde_json::{json, Map, Value};
use std::collections::{BTreeMap, HashSet};
use std::path::{Path, PathBuf};
use std::sync::atomic::{AtomicU64, Ordering};
use std::sync::Mutex;
use std::time::Instant;

#[derive(Clone, Copy, Debug, PartialEq, Eq)]
pub enum Tier {
    Quick,
    Thorough,
}

impl Tier {
    pub fn as_str(&self) -> &'static str {
        match self {
            Tier::Quick => "quick",
            Tier::Thorough => "thorough",
        }
    }
    pub fn is_thorough(&self) -> bool {
        *self == Tier::Thorough
    }
}

#[derive(Clone, Debug)]
pub struct Finding {
    /// signature: names construct / slot / request; no whitespace
    pub sig: String,
    /// one-line human readable description of what failed
    pub what: String,
    /// the failing case, replayable
    pub case: Value,
}

impl Finding {
    pub fn new(sig: impl Into<String>, what: impl Into<String>, case: Value) -> Self {
        let sig: String = sig.into();
        let sig = sig
            .chars()
            .map(|c| if c.is_whitespace() { '_' } else { c })
            .collect();
        Finding {
            sig,
            what: what.into(),
            case,
        }
    }
}

struct Group {
    count: u64,
    first: Finding,
    size: usize,
}

pub struct Ctx {
    pub id: String,
    pub tier: Tier,
    pub seed: u64,
    pub verif_root: PathBuf,
    start: Instant,
    evaluations: AtomicU64,
    distinct: Mutex<HashSet<u64>>,
    samples: Mutex<Vec<Value>>,
    last_sample: Mutex<Option<Value>>,
    counters: Mutex<BTreeMap<String, u64>>,
    groups: Mutex<BTreeMap<String, Group>>,
    info: Mutex<BTreeMap<String, Value>>,
    notes: Mutex<Vec<String>>,
    caps: Mutex<Vec<String>>,
    pub replay_only: bool,
}

impl Ctx {
    pub fn new(id: &str, tier: Tier) -> Self {
        let seed = std::env::var("VERIF_SEED")
            .ok()
            .and_then(|s| s.parse::<i64>().ok())
            .map(|s| s as u64)
            .unwrap_or(0);
        let verif_root = std::env::var("VERIF_ROOT")
            .map(PathBuf::from)
            .unwrap_or_else(|_| PathBuf::from("/verif"));
        Ctx {
            id: id.to_string(),
            tier,
            seed,
            verif_root,
            start: Instant::now(),
            evaluations: AtomicU64::new(0),
            distinct: Mutex::new(HashSet::new()),
            samples: Mutex::new(vec![]),
            last_sample: Mutex::new(None),
            counters: Mutex::new(BTreeMap::new()),
            groups: Mutex::new(BTreeMap::new()),
            info: Mutex::new(BTreeMap::new()),
            notes: Mutex::new(vec![]),
            caps: Mutex::new(vec![]),
            replay_only: false,
        }
    }

    /// Counts one executed case. `sample` is only evaluated when this case is written out
    /// (1st, 2nd, 3rd, every 10^n-th; the last one seen is kept too).
    pub fn eval(&self, sample: impl FnOnce() -> Value) -> u64 {
        let n = self.evaluations.fetch_add(1, Ordering::Relaxed) + 1;
        let mut p = 1u64;
        let mut is_pow = n <= 3;
        while p <= n && !is_pow {
            if p == n {
                is_pow = true;
            }
            p = p.saturating_mul(10);
        }
        if is_pow {
            self.samples.lock().unwrap().push(json!({"n": n, "case": sample()}));
        } else if n % 4096 == 0 {
            *self.last_sample.lock().unwrap() = Some(json!({"n": n, "case": sample()}));
        }
        n
    }

    pub fn evals(&self) -> u64 {
        self.evaluations.load(Ordering::Relaxed)
    }

    /// Adds bulk evaluations (counted by a child process / batch).
    pub fn add_evals(&self, n: u64) {
        self.evaluations.fetch_add(n, Ordering::Relaxed);
    }

    pub fn add_sample(&self, v: Value) {
        let mut s = self.samples.lock().unwrap();
        if s.len() < 64 {
            s.push(v);
        }
    }

    /// Registers a case as non-trivial by the property's rule (distinctness by hash).
    pub fn nontrivial(&self, hash: u64) {
        self.distinct.lock().unwrap().insert(hash);
    }

    pub fn nontrivial_many(&self, hashes: impl IntoIterator<Item = u64>) {
        let mut d = self.distinct.lock().unwrap();
        for h in hashes {
            d.insert(h);
        }
    }

    pub fn distinct_count(&self) -> usize {
        self.distinct.lock().unwrap().len()
    }

    pub fn count(&self, key: &str) {
        self.count_n(key, 1);
    }

    pub fn count_n(&self, key: &str, n: u64) {
        let mut c = self.counters.lock().unwrap();
        if let Some(v) = c.get_mut(key) {
            *v += n;
        } else {
            c.insert(key.to_string(), n);
        }
    }

    pub fn counter(&self, key: &str) -> u64 {
        self.counters.lock().unwrap().get(key).copied().unwrap_or(0)
    }

    pub fn merge_counters(&self, other: &BTreeMap<String, u64>) {
        for (k, v) in other {
            self.count_n(k, *v);
        }
    }

    /// Extra coverage key (bound reached, states, transitions …).
    pub fn set(&self, key: &str, v: Value) {
        self.info.lock().unwrap().insert(key.to_string(), v);
    }

    pub fn note(&self, s: impl Into<String>) {
        self.notes.lock().unwrap().push(s.into());
    }

    /// A cap was hit: the run is then not called exhaustive.
    pub fn cap(&self, s: impl Into<String>) {
        self.caps.lock().unwrap().push(s.into());
    }

    pub fn finding(&self, f: Finding) {
        let size = f.case.to_string().len();
        let mut g = self.groups.lock().unwrap();
        match g.get_mut(&f.sig) {
            Some(group) => {
                group.count += 1;
                // keep the smallest example (ties: lexicographically first, for determinism)
                if size < group.size
                    || (size == group.size && f.case.to_string() < group.first.case.to_string())
                {
                    group.size = size;
                    group.first = f;
                }
            }
            None => {
                g.insert(
                    f.sig.clone(),
                    Group {
                        count: 1,
                        first: f,
                        size,
                    },
                );
            }
        }
    }

    pub fn findings_count(&self) -> usize {
        self.groups.lock().unwrap().len()
    }

    pub fn wall(&self) -> f64 {
        self.start.elapsed().as_secs_f64()
    }

    /// Writes the evidence file, applies the findings protocol, returns the exit code.
    pub fn finish(
        &self,
        level: &str,
        rule: &str,
        exhaustive: bool,
        assumptions: &[&str],
    ) -> i32 {
        let known = Known::load(&self.verif_root.join("KNOWN_FINDINGS.txt"), &self.id);
        let groups = self.groups.lock().unwrap();
        let mut violations = 0;
        let mut known_hit = vec![];
        let mut finding_summary = vec![];
        let replay_dir = self.verif_root.join("replays").join(&self.id);
        for (sig, g) in groups.iter() {
            let is_known = known.known.iter().any(|k| &k.0 == sig);
            finding_summary.push(json!({
                "sig": sig, "count": g.count, "known": is_known, "what": g.first.what,
                "example": g.first.case,
            }));
            if is_known {
                // keep a replayable artefact for listed findings as well
                let kdir = replay_dir.join("known");
                let _ = std::fs::create_dir_all(&kdir);
                let fname = kdir.join(format!("{}.json", sanitize(sig)));
                let body = json!({
                    "property": self.id, "sig": sig, "what": g.first.what, "cases_with_this_sig": g.count,
                    "case": g.first.case,
                    "replay": format!("cd /verif && ./check {} --replay {}", self.id, fname.display()),
                });
                if !self.replay_only {
                    let _ = std::fs::write(&fname, serde_json::to_string_pretty(&body).unwrap());
                }
                let text = known
                    .known
                    .iter()
                    .find(|k| &k.0 == sig)
                    .map(|k| k.1.clone())
                    .unwrap_or_default();
                println!(
                    "KNOWN-FINDING: property={} sig={} {} ({} cases; e.g. {})",
                    self.id,
                    sig,
                    text,
                    g.count,
                    one_line(&g.first.what)
                );
                known_hit.push(sig.clone());
            } else {
                violations += 1;
                let _ = std::fs::create_dir_all(&replay_dir);
                let fname = replay_dir.join(format!("{}.json", sanitize(sig)));
                let body = json!({
                    "property": self.id, "sig": sig, "what": g.first.what, "cases_with_this_sig": g.count,
                    "case": g.first.case,
                    "replay": format!("cd /verif && ./check {} --replay {}", self.id, fname.display()),
                });
                let _ = std::fs::write(&fname, serde_json::to_string_pretty(&body).unwrap());
                println!("  what: {}", one_line(&g.first.what));
                println!("VIOLATION property={} replay={}", self.id, fname.display());
            }
        }
        let stale: Vec<String> = known
            .known
            .iter()
            .filter(|k| !groups.contains_key(&k.0))
            .map(|k| k.0.clone())
            .collect();

        // coverage floor: the number of cases of the reference run of this tier (COVERAGE_FLOOR.json, committed, never
        // written at run time). A run that covers clearly less - a catalogue program that no longer builds, an
        // oracle that silently gives up - says so through `caps_hit` (no verdict is attached to it)
        let mut floor_info = Value::Null;
        if !self.replay_only {
            if let Ok(text) = std::fs::read_to_string(self.verif_root.join("COVERAGE_FLOOR.json")) {
                if let Ok(v) = serde_json::from_str::<Value>(&text) {
                    let f = &v[&self.id][self.tier.as_str()];
                    for (key, now) in [("evaluations", self.evals()), ("distinct_nontrivial", self.distinct_count() as u64)] {
                        if let Some(reference) = f[key].as_u64() {
                            if now * 10 < reference * 9 {
                                self.cap(format!("coverage below the recorded floor: {} {} now, {} in the reference run (COVERAGE_FLOOR.json)", now, key, reference));
                            }
                        }
                    }
                    floor_info = f.clone();
                }
            }
        }
        let caps = self.caps.lock().unwrap().clone();
        let exhaustive = exhaustive && caps.is_empty();

        let mut cov = Map::new();
        let mut samples = self.samples.lock().unwrap().clone();
        if let Some(l) = self.last_sample.lock().unwrap().clone() {
            samples.push(l);
        }
        cov.insert("evaluations".into(), json!(self.evals()));
        cov.insert("distinct_nontrivial".into(), json!(self.distinct_count()));
        cov.insert("rule".into(), json!(rule));
        cov.insert("samples".into(), Value::Array(samples));
        cov.insert("exhaustive".into(), json!(exhaustive));
        cov.insert("caps_hit".into(), json!(caps));
        cov.insert("coverage_floor".into(), floor_info);
        cov.insert(
            "counters".into(),
            json!(self.counters.lock().unwrap().clone()),
        );
        for (k, v) in self.info.lock().unwrap().iter() {
            cov.insert(k.clone(), v.clone());
        }
        cov.insert("findings".into(), Value::Array(finding_summary));
        cov.insert("known_findings_hit".into(), json!(known_hit));
        cov.insert("stale_known_findings".into(), json!(stale));
        cov.insert("notes".into(), json!(self.notes.lock().unwrap().clone()));

        let ev = json!({
            "property_id": self.id,
            "tier": self.tier.as_str(),
            "seed": self.seed,
            "level": level,
            "coverage": Value::Object(cov),
            "assumptions": assumptions,
            "wall_s": self.wall(),
            "violations": violations,
        });
        if !self.replay_only {
            let dir = self.verif_root.join("evidence");
            let _ = std::fs::create_dir_all(&dir);
            let path = dir.join(format!("{}.json", self.id));
            if let Err(e) = std::fs::write(&path, serde_json::to_string_pretty(&ev).unwrap()) {
                eprintln!("cannot write evidence {}: {}", path.display(), e);
                return 2;
            }
        }
        println!(
            "{} tier={} evaluations={} distinct_nontrivial={} findings={} violations={} exhaustive={} wall={:.1}s",
            self.id,
            self.tier.as_str(),
            self.evals(),
            self.distinct_count(),
            groups.len(),
            violations,
            exhaustive,
            self.wall()
        );
        if violations > 0 {
            1
        } else {
            0
        }
    }
}

fn one_line(s: &str) -> String {
    let s: String = s
        .chars()
        .map(|c| match c {
            '\n' => '⏎',
            '\r' => '␍',
            c => c,
        })
        .collect();
    if s.chars().count() > 300 {
        s.chars().take(300).collect::<String>() + "…"
    } else {
        s
    }
}

pub fn sanitize(sig: &str) -> String {
    let mut out = String::new();
    for c in sig.chars() {
        if c.is_ascii_alphanumeric() || c == '-' || c == '_' || c == '.' {
            out.push(c);
        } else {
            out.push_str(&format!("~{:02x}", c as u32));
        }
    }
    if out.len() > 150 {
        let h = crate::fnv_str(sig);
        out.truncate(130);
        out.push_str(&format!("-{:016x}", h));
    }
    out
}

pub struct Known {
    /// (sig, text)
    pub known: Vec<(String, String)>,
}

impl Known {
    pub fn load(path: &Path, id: &str) -> Known {
        let mut known = vec![];
        if let Ok(text) = std::fs::read_to_string(path) {
            for line in text.lines() {
                let line = line.trim();
                if let Some(rest) = line.strip_prefix("known:") {
                    let rest = rest.trim();
                    let mut parts = rest.splitn(3, char::is_whitespace);
                    let prop = parts.next().unwrap_or("");
                    let sig = parts.next().unwrap_or("");
                    let text = parts.next().unwrap_or("").trim();
                    if prop == format!("property={}", id) {
                        if let Some(sig) = sig.strip_prefix("sig=") {
                            known.push((sig.to_string(), text.to_string()));
                        }
                    }
                }
                // "fixed:" lines suppress nothing
            }
        }
        Known { known }
    }
}
