/* LD_PRELOAD shim: makes the seeds of Rust's std::collections::hash_map::RandomState a harness
 * choice. std obtains its keys through libc's getrandom(); this replacement fills the buffer
 * from a splitmix64 stream seeded with VERIF_HASH_SEED (default 0). */
#define _GNU_SOURCE
#include <stdint.h>
#include <stdlib.h>
#include <string.h>
#include <sys/types.h>

static uint64_t next(uint64_t *s) {
    uint64_t z = (*s += 0x9E3779B97F4A7C15ULL);
    z = (z ^ (z >> 30)) * 0xBF58476D1CE4E5B9ULL;
    z = (z ^ (z >> 27)) * 0x94D049BB133111EBULL;
    return z ^ (z >> 31);
}

ssize_t getrandom(void *buf, size_t buflen, unsigned int flags) {
    (void)flags;
    const char *e = getenv("VERIF_HASH_SEED");
    uint64_t s = e ? strtoull(e, 0, 10) : 0;
    s = s * 0x2545F4914F6CDD1DULL + 0x1234567;
    unsigned char *p = buf;
    size_t i = 0;
    while (i < buflen) {
        uint64_t v = next(&s);
        size_t n = buflen - i < 8 ? buflen - i : 8;
        memcpy(p + i, &v, n);
        i += n;
    }
    return (ssize_t)buflen;
}

int getentropy(void *buf, size_t buflen) {
    return getrandom(buf, buflen, 0) == (ssize_t)buflen ? 0 : -1;
}
