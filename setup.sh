#!/bin/bash
# Builds the framework from files on disk only (offline).
set -e
cd "$(dirname "$0")"
export CARGO_NET_OFFLINE=true
unset RUSTFLAGS CARGO_ENCODED_RUSTFLAGS CARGO_BUILD_RUSTFLAGS 2>/dev/null || true
mkdir -p .build evidence replays
(cd harness && cargo build --release --offline 2>&1 | tail -3)
(cd /repo && CARGO_TARGET_DIR=/verif/.build/bin cargo build --release --offline -p mos 2>&1 | tail -3)
gcc -shared -fPIC -O2 -o .build/getrandom_shim.so cli/getrandom_shim.c
echo "setup done"
