/*
 * Promela model of the shutdown protocol of `mos lsp` (C20), as implemented after the repair:
 *
 *   Main        commands/lsp.rs + LspServer::start: message loop on stdin; `shutdown` invokes the
 *               registered shutdown handlers; `exit`/EOF leaves the loop; then: invoke the handlers
 *               (again), close the connection, DebugServer::join = set the flag and keep poking the
 *               debug port until the debug thread has finished.
 *   DebugThread debugger/mod.rs: while !flag { listen; accept; session: select over
 *               {client message, client EOF, shutdown handler}; }.
 *   Context     the LspContext mutex: Main holds it while it handles a message - for `shutdown` that
 *               is until `exit` has arrived, because Connection::handle_shutdown waits for it inside
 *               the handler - and a new session needs it to register its shutdown handler.
 *   Client      one of the enumerated histories (session state x order), chosen nondeterministically;
 *               orders 7-9 attach a debugger only after `shutdown` / `exit` / closing the pipe.
 *   Watchdog    `timeout` = no process can move: if Main has not finished, that is a HANG.
 *
 * Every reachable (state, order, outcome) triple is printed by embedded C code (once).
 */

c_decl {
\#include <stdio.h>
\#include <string.h>
}
c_code {
static char seen[8][12][4];
static const char *STATE_NAME[] = {"NoDebugger", "AttachedIdle", "TestRunning", "TestPaused", "TestFinished", "TestLaunched"};
static const char *ORDER_NAME[] = {"shutdown,exit", "close-stdin", "disconnect,shutdown,exit", "shutdown,disconnect,exit",
                                   "shutdown,exit,disconnect", "close-stdin,close-tcp", "close-tcp,shutdown,exit",
                                   "shutdown,connect,exit", "shutdown,exit,connect", "close-stdin,connect",
                                   "disconnect-keep,shutdown,exit"};
static const char *OUT_NAME[] = {"exit-0", "HANG", "exit-101"};
static void triple(int s, int o, int x) {
    if (!seen[s][o][x]) { seen[s][o][x] = 1; printf("TRIPLE %s %s %s\n", STATE_NAME[s], ORDER_NAME[o], OUT_NAME[x]); }
}
}

mtype = { m_shutdown, m_exit, m_eof, m_disconnect, m_other };

chan stdin_ch = [4] of { mtype };       /* client -> Main                                  */
chan resp_ch  = [4] of { mtype };       /* Main -> client (shutdown response)              */
chan handler  = [1] of { bit };         /* ShutdownManager sender of the active session    */
chan conn_req = [0] of { bit };         /* connect attempts: 1 = real debugger, 0 = dummy   */
chan tcp      = [4] of { mtype };       /* client -> session                               */

byte st;                 /* session state of the history   */
byte ord;                /* order of the history           */
bool flag = false;       /* DebugServer.shutdown           */
bool listening = false;
bool handler_registered = false;
bool dbg_finished = false;
bool main_done = false;
bool tcp_open = false;   /* the debugger's TCP connection is open */
bool dummy = false;      /* the current session was accepted from Main's dummy connect */
bool ctx_locked = false; /* the LspContext mutex */
bool shutting_down = false; /* ShutdownManager: the handlers have been invoked (IMPL_REMEMBERS only) */

/* 1 = the ShutdownManager remembers that shutdown was announced and tells late registrations at once */
#ifndef IMPL_REMEMBERS
#define IMPL_REMEMBERS 1
#endif

inline lock()   { atomic { !ctx_locked -> ctx_locked = true } }
inline unlock() { ctx_locked = false }

inline invoke_handlers() {
    shutting_down = true;
    if
    :: handler_registered && nfull(handler) -> handler!1
    :: !handler_registered || full(handler) -> skip
    fi
}

proctype Main() {
    mtype m;
    do
    :: stdin_ch?m ->
        if
        :: m == m_shutdown ->
            lock();
            invoke_handlers(); resp_ch!m_shutdown;
            /* Connection::handle_shutdown: wait for `exit` with the context still locked; the reader
               thread stops after `exit`, which ends the message loop */
            stdin_ch?m;
            unlock();
            break
        :: m == m_exit -> break
        :: m == m_eof -> break
        :: else -> lock(); unlock()
        fi
    od;
    /* after the message loop */
    lock(); invoke_handlers(); unlock();
    /* connection closed, IO threads joined (they only depend on the sender being dropped) */
    flag = true;
    do
    :: dbg_finished -> break
    :: !dbg_finished && listening ->
        if
        :: conn_req!0                /* dummy connect, closed right away */
        :: !listening -> skip        /* the listener is gone again: connection refused */
        fi
    /* (connection refused, sleep, retry: a wait until one of the two guards holds - written as
       blocking, so that "Main polls forever" shows up as `timeout` and not as an endless run) */
    od;
    main_done = true;
    c_code { triple(now.st, now.ord, 0); }
}

proctype DebugThread() {
    bit who; mtype m; bit h;
    do
    :: flag -> break
    :: !flag ->
        listening = true;
        conn_req?who;                    /* accept() */
        listening = false;
        dummy = (who == 0);
        /* LspContext::add_shutdown_handler (lock, insert, unlock) */
        atomic { !ctx_locked -> handler_registered = true;
                 if
                 :: IMPL_REMEMBERS && shutting_down && nfull(handler) -> handler!1
                 :: !IMPL_REMEMBERS || !shutting_down || full(handler) -> skip
                 fi }
        /* session */
        do
        :: dummy -> break                              /* the dummy connection is closed at once: EOF */
        :: !dummy && nempty(tcp) -> tcp?m;
            if
            :: m == m_eof -> break
            :: else -> skip                            /* disconnect etc.: handled, session goes on */
            fi
        :: handler?h -> break                          /* LSP is shutting down */
        od;
        handler_registered = false;
        /* drain a handler message that raced with the end of the session */
        if
        :: handler?h -> skip
        :: empty(handler) -> skip
        fi
    od;
    dbg_finished = true
}

proctype Client() {
    /* choose the history */
    if
    :: st = 0 :: st = 1 :: st = 2 :: st = 3 :: st = 4 :: st = 5
    fi;
    if
    :: ord = 0 :: ord = 1
    :: st != 0 -> ord = 2 :: st != 0 -> ord = 3 :: st != 0 -> ord = 4 :: st != 0 -> ord = 5 :: st != 0 -> ord = 6
    :: st == 0 -> ord = 7 :: st == 0 -> ord = 8 :: st == 0 -> ord = 9
    :: st != 0 -> ord = 10
    fi;
    /* set up the session */
    if
    :: st != 0 -> conn_req!1; tcp_open = true;
                  /* "attached" = the client has seen a response (initialize, launch, ...), which the
                     session sends from its loop, i.e. after it has registered its shutdown handler */
                  (handler_registered && !dummy)
    :: else -> skip
    fi;
    /* the shutdown history; messages to a process that is gone are simply lost */
    if
    :: ord == 0 -> stdin_ch!m_shutdown; resp_ch?_; stdin_ch!m_exit
    :: ord == 1 -> stdin_ch!m_eof
    :: ord == 2 -> tcp!m_disconnect; stdin_ch!m_shutdown; resp_ch?_; stdin_ch!m_exit
    :: ord == 3 -> stdin_ch!m_shutdown; resp_ch?_; tcp!m_disconnect; stdin_ch!m_exit
    :: ord == 4 -> stdin_ch!m_shutdown; resp_ch?_; stdin_ch!m_exit;
                   if :: nfull(tcp) -> tcp!m_disconnect :: full(tcp) -> skip fi
    :: ord == 5 -> stdin_ch!m_eof;
                   if :: nfull(tcp) -> tcp!m_eof :: full(tcp) -> skip fi
    :: ord == 6 -> tcp!m_eof; stdin_ch!m_shutdown; resp_ch?_; stdin_ch!m_exit
    /* a debugger that attaches late and stays connected (a refused connection is no session) */
    :: ord == 7 -> stdin_ch!m_shutdown; resp_ch?_;
                   if :: conn_req!1 -> tcp_open = true :: dbg_finished -> skip fi;
                   stdin_ch!m_exit
    :: ord == 8 -> stdin_ch!m_shutdown; resp_ch?_; stdin_ch!m_exit;
                   if :: conn_req!1 -> tcp_open = true :: dbg_finished -> skip fi
    /* (for the protocol a disconnect with arguments is a disconnect) */
    :: ord == 10 -> tcp!m_disconnect; stdin_ch!m_shutdown; resp_ch?_; stdin_ch!m_exit
    :: ord == 9 -> stdin_ch!m_eof;
                   if :: conn_req!1 -> tcp_open = true :: dbg_finished -> skip fi
    fi
}

proctype Watchdog() {
    do
    :: timeout ->
        if
        :: !main_done -> c_code { triple(now.st, now.ord, 1); }
        :: else -> skip
        fi;
        break
    od
}

init {
    atomic { run Main(); run DebugThread(); run Client(); run Watchdog() }
}
