/*
 * Promela model of the shutdown protocol of `mos lsp` (C20), as implemented after the repair:
 *
 *   Main        commands/lsp.rs + LspServer::start: message loop on stdin; `shutdown` invokes the
 *               registered shutdown handlers; `exit`/EOF leaves the loop; then: invoke the handlers
 *               (again), close the connection, DebugServer::join = set the flag and keep poking the
 *               debug port until the debug thread has finished.
 *   DebugThread debugger/mod.rs: while !flag { listen; accept; session: select over
 *               {client message, client EOF, shutdown handler}; }.
 *   Client      one of the enumerated histories (session state x order), chosen nondeterministically.
 *   Watchdog    `timeout` = no process can move: if Main has not finished, that is a HANG.
 *
 * Every reachable (state, order, outcome) triple is printed by embedded C code (once).
 */

c_decl {
\#include <stdio.h>
\#include <string.h>
}
c_code {
static char seen[8][8][4];
static const char *STATE_NAME[] = {"NoDebugger", "AttachedIdle", "TestRunning", "TestPaused", "TestFinished"};
static const char *ORDER_NAME[] = {"shutdown,exit", "close-stdin", "disconnect,shutdown,exit", "shutdown,disconnect,exit",
                                   "shutdown,exit,disconnect", "close-stdin,close-tcp", "close-tcp,shutdown,exit"};
static const char *OUT_NAME[] = {"exit-0", "HANG", "exit-101"};
static void triple(int s, int o, int x) {
    if (!seen[s][o][x]) { seen[s][o][x] = 1; printf("TRIPLE %s %s %s\n", STATE_NAME[s], ORDER_NAME[o], OUT_NAME[x]); }
}
}

mtype = { m_shutdown, m_exit, m_eof, m_disconnect, m_other };

chan stdin_ch = [4] of { mtype };       /* client -> Main                                  */
chan resp_ch  = [4] of { mtype };       /* Main -> client (shutdown response)              */
chan handler  = [1] of { bit };         /* ShutdownManager sender of the active session    */
chan conn_req = [0] of { bit };         /* connect attempts: 1 = real debugger, 0 = dummy   */
chan tcp      = [4] of { mtype };       /* client -> session                               */

byte st;                 /* session state of the history   */
byte ord;                /* order of the history           */
bool flag = false;       /* DebugServer.shutdown           */
bool listening = false;
bool handler_registered = false;
bool dbg_finished = false;
bool main_done = false;
bool tcp_open = false;   /* the debugger's TCP connection is open */
bool dummy = false;      /* the current session was accepted from Main's dummy connect */

inline invoke_handlers() {
    if
    :: handler_registered && nfull(handler) -> handler!1
    :: !handler_registered || full(handler) -> skip
    fi
}

proctype Main() {
    mtype m;
    do
    :: stdin_ch?m ->
        if
        :: m == m_shutdown -> invoke_handlers(); resp_ch!m_shutdown
        :: m == m_exit -> break
        :: m == m_eof -> break
        :: else -> skip
        fi
    od;
    /* after the message loop */
    invoke_handlers();
    /* connection closed, IO threads joined (they only depend on the sender being dropped) */
    flag = true;
    do
    :: dbg_finished -> break
    :: !dbg_finished && listening ->
        if
        :: conn_req!0                /* dummy connect, closed right away */
        :: !listening -> skip        /* the listener is gone again: connection refused */
        fi
    :: !dbg_finished && !listening -> skip           /* connection refused, sleep, retry  */
    od;
    main_done = true;
    c_code { triple(now.st, now.ord, 0); }
}

proctype DebugThread() {
    bit who; mtype m; bit h;
    do
    :: flag -> break
    :: !flag ->
        listening = true;
        conn_req?who;                    /* accept() */
        listening = false;
        dummy = (who == 0);
        handler_registered = true;
        /* session */
        do
        :: dummy -> break                              /* the dummy connection is closed at once: EOF */
        :: !dummy && nempty(tcp) -> tcp?m;
            if
            :: m == m_eof -> break
            :: else -> skip                            /* disconnect etc.: handled, session goes on */
            fi
        :: handler?h -> break                          /* LSP is shutting down */
        od;
        handler_registered = false;
        /* drain a handler message that raced with the end of the session */
        if
        :: handler?h -> skip
        :: empty(handler) -> skip
        fi
    od;
    dbg_finished = true
}

proctype Client() {
    /* choose the history */
    if
    :: st = 0 :: st = 1 :: st = 2 :: st = 3 :: st = 4
    fi;
    if
    :: ord = 0 :: ord = 1
    :: st != 0 -> ord = 2 :: st != 0 -> ord = 3 :: st != 0 -> ord = 4 :: st != 0 -> ord = 5 :: st != 0 -> ord = 6
    fi;
    /* set up the session */
    if
    :: st != 0 -> conn_req!1; tcp_open = true
    :: else -> skip
    fi;
    /* the shutdown history; messages to a process that is gone are simply lost */
    if
    :: ord == 0 -> stdin_ch!m_shutdown; resp_ch?_; stdin_ch!m_exit
    :: ord == 1 -> stdin_ch!m_eof
    :: ord == 2 -> tcp!m_disconnect; stdin_ch!m_shutdown; resp_ch?_; stdin_ch!m_exit
    :: ord == 3 -> stdin_ch!m_shutdown; resp_ch?_; tcp!m_disconnect; stdin_ch!m_exit
    :: ord == 4 -> stdin_ch!m_shutdown; resp_ch?_; stdin_ch!m_exit;
                   if :: nfull(tcp) -> tcp!m_disconnect :: full(tcp) -> skip fi
    :: ord == 5 -> stdin_ch!m_eof;
                   if :: nfull(tcp) -> tcp!m_eof :: full(tcp) -> skip fi
    :: ord == 6 -> tcp!m_eof; stdin_ch!m_shutdown; resp_ch?_; stdin_ch!m_exit
    fi
}

proctype Watchdog() {
    do
    :: timeout ->
        if
        :: !main_done -> c_code { triple(now.st, now.ord, 1); }
        :: else -> skip
        fi;
        break
    od
}

init {
    atomic { run Main(); run DebugThread(); run Client(); run Watchdog() }
}
