#!/bin/bash
# tools/seed_eval_ns.sh <results-dir> <seed-id>...   (seed-id = C01-1 …; patch = /tmp/seed-C01-out/patch1.diff)
# Evaluates seeded changes against the FULL quick suite without touching the real /repo and /verif:
# copies of both are bind-mounted over /repo and /verif in a private mount namespace, so the
# checks (which have /repo and /verif paths compiled in) run unmodified while work goes on outside.
# Environment: EVALROOT (where the copies live), SEED_PREFIX (seed | s2 | s3), CHECKS=own (own property's check only).
set -u
RES="$1"; shift
mkdir -p "$RES" ${EVALROOT:-/tmp/evalroot}
rsync -a --delete --exclude target /repo/ ${EVALROOT:-/tmp/evalroot}/repo/
rsync -a --delete --exclude 'scratch' /verif/ ${EVALROOT:-/tmp/evalroot}/verif/
SEEDS="$*"
unshare -m bash -c '
  mount --bind ${EVALROOT:-/tmp/evalroot}/repo /repo && mount --bind ${EVALROOT:-/tmp/evalroot}/verif /verif || exit 2
  cd /verif
  for seed in '"$SEEDS"'; do
    id=${seed%-*}; n=${seed#*-}
    patch=/tmp/${SEED_PREFIX:-seed}-$id-out/patch$n.diff
    [ -f /tmp/${SEED_PREFIX:-seed}-$id-out/patch$n.rebased.diff ] && patch=/tmp/${SEED_PREFIX:-seed}-$id-out/patch$n.rebased.diff
    [ -f "$patch" ] || { echo "$seed: no patch"; continue; }
    (cd /repo && git checkout -q -- . && git apply "$patch") || { echo "$seed: patch does not apply"; continue; }
    line="$seed:"
    checks="C01 C02 C03 C04 C05 C06 C07 C08 C09 C10 C11 C12 C13 C14 C15 C16 C17 C18 C19 C20"
    # CHECKS=own: only the check of the property the change was written for
    [ "${CHECKS:-all}" = own ] && checks=$id
    for c in $checks; do
      out=$(./check $c --tier quick 2>&1); rc=$?
      nv=$(echo "$out" | grep -c "^VIOLATION")
      if [ $rc -ne 0 ]; then
        line="$line $c=exit$rc/$nv"
        echo "$out" | grep -E "^VIOLATION|^  what|MACHINERY" | head -6 | cut -c1-300 > '"$RES"'/$seed.$c.txt
      fi
    done
    echo "$line" | tee -a '"$RES"'/summary.txt
    (cd /repo && git checkout -q -- .)
  done
'
