#!/usr/bin/env python3
"""tools/seed_store.py <final-summary.txt>...

Stores the independently written, confirmed property-breaking changes under /verif/seeded/<ID>-<n>/:
patch.diff (rebased onto the repaired tree where a repair touched the same lines; the author's
original is kept as patch.orig.diff), the author's demonstration with its helper files, and
meta.json (property, what the change needs in order to show, what was run to confirm it, which
checks alarmed in the first round and which alarm now).

Inputs: /tmp/seed-<ID>-out (what the sub-agent left), seeded/FIRST_ROUND.txt (first evaluation),
and the summary files of the final evaluation (tools/seed_eval_ns.sh).
"""
import glob, json, os, re, shutil, subprocess, sys

ROOT = "/verif/seeded"


def parse_summary(path):
    out = {}
    if not os.path.exists(path):
        return out
    for line in open(path):
        line = line.split("(")[0].strip()
        if not line or line.startswith("#") or ":" not in line:
            continue
        seed, rest = line.split(":", 1)
        caught = {}
        for tok in rest.split():
            m = re.match(r"(C\d\d)=exit(\d+)/(\d+)", tok)
            if m:
                caught[m.group(1)] = {"exit": int(m.group(2)), "violations": int(m.group(3))}
        out[seed.strip()] = caught
    return out


def main():
    first = parse_summary(f"{ROOT}/FIRST_ROUND.txt")
    final = {}
    for p in sys.argv[1:]:
        final.update(parse_summary(p))
    repo_head = subprocess.run("git -C /repo log --format=%h -1", shell=True, capture_output=True, text=True).stdout.strip()
    verif_head = subprocess.run("git -C /verif log --format=%h -1", shell=True, capture_output=True, text=True).stdout.strip()
    rows = []
    prefix = os.environ.get("SEED_PREFIX", "seed")
    # the second round of changes (prefix s2) is stored as <ID>-3 and <ID>-4, the third (s3) as <ID>-5 and <ID>-6, the fourth (s4) as <ID>-7 and <ID>-8
    shift = {"s2": 2, "s3": 4, "s4": 6}.get(prefix, 0)
    first_file = {0: f"{ROOT}/FIRST_ROUND.txt", 2: f"{ROOT}/SECOND_ROUND.txt", 4: f"{ROOT}/THIRD_ROUND.txt", 6: f"{ROOT}/FOURTH_ROUND.txt"}[shift]
    first = parse_summary(first_file)
    for out in sorted(glob.glob(f"/tmp/{prefix}-C??-out")):
        pid = os.path.basename(out)[len(prefix) + 1:len(prefix) + 4]
        for n in ("1", "2"):
            seed = f"{pid}-{int(n) + shift}"
            patch = f"{out}/patch{n}.diff"
            meta_path = f"{out}/meta{n}.json"
            if not (os.path.exists(patch) and os.path.exists(meta_path)):
                continue
            marker = f"{out}/confirmed{n}.txt"
            confirmed = os.path.exists(marker) and open(marker).read().strip().startswith("CONFIRMED")
            if not confirmed:
                print(f"{seed}: not confirmed, not stored")
                continue
            dest = f"{ROOT}/{seed}"
            os.makedirs(dest, exist_ok=True)
            rebased = f"{out}/patch{n}.rebased.diff"
            if os.path.exists(rebased):
                shutil.copy(rebased, f"{dest}/patch.diff")
                shutil.copy(patch, f"{dest}/patch.orig.diff")
            else:
                shutil.copy(patch, f"{dest}/patch.diff")
            # the demonstration of this change and the helper files both demonstrations share
            for f in glob.glob(f"{out}/*"):
                b = os.path.basename(f)
                if re.match(r"(patch|meta|confirmed)\d", b):
                    continue
                m = re.match(r"demo(\d)", b)
                if m and m.group(1) != n:
                    continue
                if b in ("__pycache__",):
                    continue
                if os.path.isdir(f):
                    shutil.copytree(f, f"{dest}/{b}", dirs_exist_ok=True, ignore=shutil.ignore_patterns("__pycache__", "target"))
                else:
                    shutil.copy(f, dest)
            meta = json.load(open(meta_path))
            # (summaries are written with the author's numbering 1/2)
            fr = first.get(f"{pid}-{n}", {})
            fi = final.get(f"{pid}-{n}") if shift == 0 else final.get(f"{pid}-{n}")
            own_first = pid in fr
            meta.update({
                "property": pid,
                "author": "independent sub-agent that was given the text of the property and a scratch worktree of /repo only",
                "confirmed_by": "tools/seed_confirm.sh in the scratch worktree: the 209 repository tests pass with the change; the demonstration fails with it and passes without it",
                "how_to_run_checks_against_it": "git -C /repo apply /verif/seeded/%s/patch.diff && (cd /verif && ./check %s --tier quick); git -C /repo checkout -- ." % (seed, pid),
                "first_round": {"alarmed": sorted(fr.keys()), "own_property_check_alarmed": own_first, "detail": fr},
                "now": None if fi is None else {"alarmed": sorted(k for k, v in fi.items() if v["exit"] == 1),
                                                  "machinery_exits": sorted(k for k, v in fi.items() if v["exit"] != 1),
                                                  "own_property_check_alarmed": pid in fi and fi[pid]["exit"] == 1, "detail": fi,
                                                  "repo_head": repo_head, "verif_head": verif_head},
                "patch_rebased": os.path.exists(rebased),
            })
            json.dump(meta, open(f"{dest}/meta.json", "w"), indent=1)
            rows.append((seed, meta.get("summary", "")[:10], fr, fi))
            print(f"{seed}: stored; first round {sorted(fr.keys()) or '-'}; now {sorted(fi.keys()) if fi is not None else 'pending'}")


if __name__ == "__main__":
    main()
