#!/usr/bin/env python3
"""Generates /verif/MANIFEST.json from the table below (single source of truth)."""
import json, subprocess, os

ROOT = os.path.dirname(os.path.dirname(os.path.abspath(__file__)))

# id -> (level category, technique, design_ref, level text, level note)
CHECKS = {
 "C01": ("exploration",
         "bounded-exhaustive input enumeration against an ISA reference model + differential pair enumeration",
         "DESIGN.md §4 C01",
         "Every (mnemonic x syntactic form x operand boundary class x radix x case), the branch distance sweep -140..140 x 3 shapes x 2 directions x 6 anchors and again inside segments whose run address differs from their storage address, every ordered pair of 170 statement forms x 4 separators, and 12 operand shapes that are no form of the instruction set (two register suffixes, a suffix on an immediate) x 56 mnemonics are executed on the real parser+codegen; exhaustive for that finite space, which contains every shortcut visible in the code (255/256, -128/127, target $0000, optional operands).",
         "Operand values are boundary classes plus seed-chosen representatives; ISA model generated from the opcode bit structure is trusted; values above 65535 / negative values are outside the statement."),
 "C05": ("exploration",
         "bounded-exhaustive input enumeration (all single-character edits of a production-covering corpus, all short token strings, all line splices) with a round-trip oracle on the real parser",
         "DESIGN.md §4 C05",
         "Every single-character deletion/insertion/replacement (104 characters) of a corpus holding one rendering of every grammar production and of the example sources, all token strings up to length 4 (quick) / 5 (thorough) over 26 tokens, and all prefix+suffix splices of the examples are parsed by the real parser; whenever no diagnostic is reported the re-rendered tokens must equal the input (modulo the letter case of code and CRLF; the texts of comments exactly). Exhaustive for that space, which contains the stray `)` / lone CR / control / non-ASCII cases the end-of-file rule mishandled.",
         "Not all byte strings: single edits of a fixed corpus and short token strings (small-scope hypothesis). Comparison modulo Unicode letter case (outside comments) and CRLF on both sides."),
 "C08": ("exploration",
         "deviation-bounded exhaustive enumeration of trivia/case variants against the base program's meaning (differential on the real assembler)",
         "DESIGN.md §4 C08",
         "For 39 base programs covering every statement kind (plus 8 with diagnostics) every single deviation - 8 single-line trivia (blank, tab, block comments incl. empty, nested, doc-style and code-like) at every ws slot, 13 at every mws slot (those plus line breaks, empty and code-like line comments), two statements joined onto one line where the line break is not the grammar's separator, a comment in place of the blank or line break between two tokens, case flip of every mnemonic/directive/register/hex literal/keyword, whole-file CRLF and leading/trailing trivia - and, in thorough, every pair of deviations at most 6 terminals apart is assembled and its bytes, symbol table and normalised diagnostics compared with the base. Exhaustive for deviation bound 1 (quick) / 2 (thorough).",
         "Trivia slots come from the harness grammar (read off the parser); strings are atomic, a number is its radix prefix + digits with a trivia slot between them; the slot after a prefix minus is excluded because `- x` is the scope identifier `-` in mos's grammar (see DESIGN.md false alarms). Joining lines is not tried after an operand-less instruction or before `*=`: there the line break is a separator, not trivia."),
 "C02": ("exploration",
         "bounded-exhaustive program enumeration with a fixed-point certificate check of the implementation's own output",
         "DESIGN.md §4 C02",
         "All statement sequences up to length 4 (quick) / 5 (thorough) over 28 items (incl. a relative reservation) placed at the zero-page boundary, all 3-level scoping shapes x 10 path forms, all 1-3 segment configurations with cross references, alignment and branches (each with segment blocks and with block-less segment switches; scoping shapes also with an explicitly defined segment), and promotion ladders that need up to 45 (quick) / 95 (thorough) passes to settle are assembled by the real multi-pass code generator; every successful build is certified by an independent walker: labels and block start/end symbols equal the cursor, every statement's bytes equal the ISA/evaluator result under the implementation's own final symbols, nothing unexplained in the image, segments.x.start/end and the VICE export agree. Sound for programs with several fixed points.",
         "Small-scope: two label names, bounded length; the walker's scoping resolver (innermost-outward, super, dotted) and ISA model are trusted; programs with constructs outside the walker are counted, not judged."),
 "C03": ("exploration",
         "bounded-exhaustive enumeration of expression trees against a reference evaluator (batched, failing batches bisected)",
         "DESIGN.md §4 C03",
         "All expression trees with up to 2 binary operators over 24 leaves (3 over 4 leaves in thorough) x 16 operators, with unary/parenthesis deviations (incl. the one spelling of two prefix operators without parentheses, `!-x`), rendered with parentheses wherever the documentation fixes no precedence, are assembled through .dword/.byte/.word/.text and compared with an independent checked-i64 evaluator; trees outside the documented domain (overflow, zero divisor, shift count outside 0..31) are counted, not run.",
         "Reference evaluator and PETSCII/screen-code expectations for a-z 0-9 are trusted; only documented precedence is relied on."),
 "C06": ("exploration",
         "bounded-exhaustive input enumeration through the whole pipeline with deterministic non-termination detection (pass-state digests + fuel via hook H1), abort isolation in child processes",
         "DESIGN.md §4 C06",
         "Single-character edits of the production-covering corpus, short token strings, an integer sweep (17 directive positions x 31 values incl. wide literals; all pairs for / and %), all import graphs over 2-3 (4) files, convergence stress programs (incl. all ordered pairs of 6 segment ranges in one bank, segments whose first byte is not at their start, defined twice or empty), all nests of depth <= 3 (4) over 14 block constructs x 3 leaves, generated-name and function-nesting texts, self- and mutually recursive macros, and real-binary file-system faults are pushed through parse, both code generator configurations, the bank image stage, formatter and listing. A panic, an aborted child (stack overflow, allocation failure), a recurring block of pass states, exhausted fuel, a silent failure or a diagnostic pointing outside the project is a finding.",
         "Pass budget 64 and fuel 300k per pass are caps (reported, never verdicts); stages without a pass loop are guarded by a 30 s horizon in child processes (text and import-graph children alike); release arithmetic."),
 "C07": ("exploration",
         "bounded-exhaustive enumeration of construct nests, differential against an independent AST-level hand expansion",
         "DESIGN.md §4 C07",
         "Every nest of depth <= 2 (quick) / 3 (thorough, capped as stated in the evidence) over 90 construct variants (.loop, .if/else with 9 conditions - among them a negative value and a value above one, constants defined only at the end of the file - and 5 branch shapes incl. unselected branches that define the names the program uses, macros, a second macro invoked next to the nest whose body defines names called like the outer ones, .const, scopes, 8 import forms incl. names imported through two levels) x 15 leaf bodies (incl. references to the enclosing block's start/end and a body with an error that exists in one intermediate pass only) is assembled and compared byte for byte with the program obtained by expanding the constructs by hand at AST level; a program that is rejected while its expansion assembles is a violation.",
         "The hand expansion implements the documented meaning; pairs whose outputs differ in layout and are both valid fixed points (certificate checker) are counted as ambiguous, not judged; outputs of the same layout that differ in content are always a violation."),
 "C09": ("exploration",
         "bounded-exhaustive configuration enumeration (radius-bounded around base configurations) against a bank layout reference model, on the real executable",
         "DESIGN.md §4 C09",
         "Bank/segment configurations (sizes, fills, filenames, create-segment, starts incl. overlaps/below/dependent, pc, write, bank assignment, output format/filename, definition orders) within a stated number of factor changes of the base configurations are built with the real `mos` binary in scratch directories; exit status and every byte of every output file are compared with a layout model written from the property statement; every 4th (thorough: every) configuration that builds is built again over longer stale output files and must give the same files.",
         "The full product is pruned to radius-bounded neighbourhoods (listed in the evidence); configurations where the statement is silent are counted, not judged."),
 "C12": ("exploration",
         "deviation-bounded exhaustive enumeration of commented programs x formatter configurations with token/meaning/comment-sequence oracles",
         "DESIGN.md §4 C12",
         "Every base program with one comment at every trivia slot - or the statement joined onto the previous statement's line, with and without a block comment in between - (pairs of slots in thorough) x default and every one-factor formatter configuration (all 960 in thorough) is formatted by the real formatter: the result must parse, keep the token string, assemble to the same bytes/symbols/diagnostics and contain the same comments in order; `mos format` on multi-file projects - also with every proper subset of the files formatted already - is checked through the real binary.",
         "Comment texts are fixed; own lexer for the token/comment clauses; known formatter defects are listed in KNOWN_FINDINGS.txt."),
 "C13": ("exploration",
         "deviation-bounded exhaustive enumeration of commented programs x formatter configurations, idempotence oracle",
         "DESIGN.md §4 C13",
         "Same space as C12; format(format(p)) must equal format(p) (a third application distinguishes settle / two-cycle / drift).",
         "Same as C12."),
 "C14": ("model_checking",
         "explicit-state breadth-first search over LSP event histories on the real server (fresh-server differential in every state, canonical state key), conformance replay against the real process",
         "DESIGN.md §4 C14",
         "States are event histories (didOpen/didChange/didClose over 4 files - entry file, imported file, stray file, mos.toml - and a typing ladder of 14 texts, rename, codeLens, formatting, documentSymbol, semantic tokens, workspace/symbol) replayed on a fresh real LspServer running its real main loop; in every state a battery of 10 request types at token starts, line ends, beyond-end and inside-multi-byte positions, and about a document that is not a file, must be answered, be well-formed and equal a fresh server's answers for the final buffers. The search runs once with an empty project directory and once with an erroneous imported file on disk. Thorough runs to closure of the canonical state set; quick to depth 3; states are merged only beyond depth 2.",
         "Canonical key = (buffers, digest of answers): sound because every didOpen/didChange/didClose rebuilds the server state from the buffers; a state that differs from the fresh server is reported, so merging loses nothing (state that only a later request can see is why nothing is merged up to depth 2; the barrier between events is a request that touches no analysis state). Text ladder is finite. stdio framing covered by the conformance replays only."),
 "C19": ("model_checking",
         "stateless preemption-bounded DFS over the interleavings of the real debugger threads under a controlled scheduler (hooked scheduling points), replayable schedules",
         "DESIGN.md §4 C19",
         "The repository's own machine and poller threads and a harness session thread run under a baton-passing scheduler that owns every lock/atomic/channel/sleep point of the emulated-machine debug adapter. For every script over setBreakpoints/configurationDone/wait/pause/continue/next/stepIn/stepOut up to the length bound (continue and steps also while the machine runs freely), on a straight-line, a loop and a subroutine program (thorough: also nested subroutines), all schedules with at most 1 (quick) / 2-3 (thorough) preemptions are executed; in each the reported stop address and registers are compared with the CPU, the machine must stay halted after a reported stop, breakpoints must not be skipped and steps must follow the uninterrupted instruction sequence. Protocol-level DAP sessions on the real process (12 programs - among them one laid out in descending address order, nested and recursive subroutines, a subroutine called twice, lines assembled several times by a loop and a macro, an rts used as a computed jump, code in two files with a breakpoint in each - x every visit of every breakpoint line x stepIn / next / stepOut, continue to every later visit of the line, stepIn to the end; stack trace and evaluate at every stop) bind the adapter-level result to what a client sees.",
         "Sequentially consistent interleavings at the hooked points; the harness calls the adapter methods the DAP handlers call (no TCP); recorded schedules are replayed and must reproduce the observations, a divergence is a machinery error."),
 "C17": ("exploration",
         "deviation-bounded exhaustive enumeration of buffers (trivia, whitespace, CRLF, non-ASCII deviations) with an edit-application oracle against the real formatter, on the real server",
         "DESIGN.md §4 C17",
         "Every base program with one comment / whitespace deviation per trivia slot (including two statements sharing a line), CRLF and non-ASCII (1-, 1- and 2-UTF-16-unit characters at start/middle/end of strings and comments) variants, tiny buffers, the example sources and the formatter's own output are opened in a fresh real server - and, for pairs of buffers, after 9 histories of the same server (earlier buffers, closes, the file on disk holding the old, the new or another text, an earlier formatting request) -; the edits returned by formatting and on-type formatting must be in range, ordered, non-overlapping and, applied with standard LSP (UTF-16, CRLF-aware) semantics, reproduce the in-process formatter exactly (cross-checked against `mos format`).",
         "Own LSP text model (self-checked at start-up); only answers that contain edits are judged, as the statement says."),
 "C18": ("exploration",
         "bounded-exhaustive enumeration of test bodies x assertion placements against a reference 6502 interpreter, in-process test runner and real `mos test`",
         "DESIGN.md §4 C18",
         "All bodies of up to 2 (quick) / 3 (thorough) instructions from a 14-instruction alphabet in a straight-line, a loop and a subroutine frame, in a straight-line, loop, subroutine and subroutine-outside-the-test frame, with one assertion of 12 kinds (registers, memory incl. the top of the address space, flags, pc, constants, and assertions that cannot be evaluated) at every gap whose compared value is the reference interpreter's value at the first or second dynamic visit (or that value + 1), two assertions at one address visited twice, programs with 1..512 failing tests (exit status), plus two-bank isolation programs (with fill values and gaps between a bank's segments), are run through the real TestRunner and a stratified subset through `mos test`; verdict, failing location, message and exit status are compared with the reference.",
         "Reference interpreter for the documented binary-mode subset is trusted (checked to be independent of the initial machine state); one or two assertions per test."),
 "C10": ("model_checking",
         "exhaustive enumeration of (project, hash seed) pairs on the real executable with owned seed nondeterminism (getrandom shim)",
         "DESIGN.md §4 C10",
         "The seeds of every RandomState in the real `mos` process are chosen by the harness (LD_PRELOAD getrandom shim); every project of the enumerated space (statement sequences over 17 statements with repeated undefined names, macros, five import forms over four importable files of which two import further files, imports of two missing files; imported files clean / with a semantic error / each with a syntax error and missing imports of its own; files that share a stem in different directories, with another extension, or outside the entry directory; 2-3 banks whose filename options spell one file differently; listing and VICE symbols) is built under every seed 0..N-1 in a fresh process and directory, and stdout plus every output file must be byte-identical over all seeds. A canary shows how many HashSet orders the N seeds produce; a labelled sampled run without the shim is a tripwire only.",
         "Exhaustive over (project, seed < N), N = 8 quick / 32 thorough; the seed space itself is not enumerable. The shim owns libc getrandom/getentropy."),
 "C15": ("exploration",
         "bounded-exhaustive enumeration of a scope-shape program catalogue x every identifier occurrence x new names on the real server, apply-edit-and-reassemble oracle",
         "DESIGN.md §4 C15",
         "For every program of the scope-shape catalogue (3 nesting levels x which levels define the name as label/constant with distinct values x use level x 5 path forms x 19 wrappers (macros, parameters, loops, interpolation, expression positions, conditionals nested two deep incl. else branches, a definition in a branch that is not taken) x 6 import forms over two files and a decoy file, with decoy comments and strings; the plain programs also with a comment holding a 2-, 3- or 4-byte character in front of every line), every identifier occurrence at start/middle/end and two kinds of fresh names: prepareRename, rename on a fresh real server, apply the workspace edit with LSP semantics, re-assemble in-process: no diagnostics, byte-identical output, rename back restores the texts, every edit covers an identifier bound to the renamed symbol, all files covered; occurrences in branches that are not taken are bound as in the twin program in which every branch is taken, and must be part of the edit; the same request repeated returns the same edit.",
         "Identifiers are ASCII; the build that judges is `mos build`'s (no analysis of unassembled code); new names are capture-free by construction; offered-but-empty renames are counted, not judged."),
 "C16": ("exploration",
         "bounded-exhaustive enumeration of the scope-shape catalogue with a value-identifies-definition oracle (assembled bytes) against definition/references/highlight of the real server",
         "DESIGN.md §4 C16",
         "Same catalogue as C15. Every definition carries a distinct value and every use is emitted between marker bytes, so the assembled bytes identify the definition the build used: go-to-definition at every occurrence (every path segment) must lead there, find-references of every definition must be exactly the occurrences whose go-to-definition is that definition, highlights are that set restricted to the file. Both tiers run all 19 wrappers.",
         "Occurrences in an uninvoked macro only get the symmetry verdict, those in branches that are not taken are bound as in the twin program with every branch taken; definitions with several instances (loop bodies, a file imported twice) are not judged 'missing'."),
 "C20": ("model_checking",
         "exhaustive enumeration of client-visible shutdown histories on the real process + explicit-state exploration (spin) of a Promela model of the protocol with outcome conformance",
         "DESIGN.md §4 C20",
         "All histories (7 session states - no debugger, attached idle, test launched but not started, the same with a pause already requested, running, paused, finished - x 11 orders of LSP shutdown/exit, DAP disconnect with and without arguments, a debugger attaching after shutdown / after exit / after the pipe was closed, closing stdin/TCP x gap patterns) are run twice against the real `mos lsp` process over stdio and TCP: exit status 0 within 5 s, debug port free afterwards, no panic. A Promela model of Main/DebugThread/Client/context mutex is explored exhaustively by spin (all interleavings, no invalid end state; polling loops modelled as blocking so that a livelock shows as a hang); every observed outcome must be in the model's outcome set for that history, and the model of the protocol before repair 8dc9ff0 must reach the hang (self-test).",
         "Timing inside the real process is a finite gap menu, not controlled; the hand-written model is bound to the code by outcome conformance only; 'promptly' = 5 s."),
 "C04": ("fault_enumeration",
         "exhaustive single-fault injection: fault classes x every statement slot of every base program (contexts incl. imported file), in-process location oracle + real-binary exit/stdout/target-directory oracle",
         "DESIGN.md §4 C04",
         "32 fault texts covering the 11 error classes (the undefined name in every position an expression can stand in; range faults at the smallest invalid distances, illegal modes incl. those that depend on the operand's size) are injected one at a time at every statement slot of every valid base program and of a program that needs 57 passes to settle - top level, scopes, loop bodies, taken branches, invoked macro bodies, segment and import blocks - and at every line boundary of the imported file. Each faulty project must produce a diagnostic whose line lies inside the offending construct (the second definition for redefinitions, the branch for range errors, the call for arity errors); through the real binary: exit status 1, stdout names file:line:col, the target directory keeps exactly its two pre-existing files, unmodified.",
         "One fault per program; weakest reading of 'names the location' (line within the construct); semantic faults only where `mos build` assembles the code."),
 "C11": ("exploration",
         "bounded-exhaustive program enumeration with a certificate oracle: the fixed-point walker's byte->statement attribution against the source map and the parsed listing text",
         "DESIGN.md §4 C11",
         "For programs covering every emitting statement kind, long lines, scopes, pc assignments, loops, conditionals, macros invoked 1-3 times and in loops, 1-2 segments plain / relocated / interleaved / with overlapping target ranges, plus every assembling statement sequence of the C02 alphabet up to length 2 (3 thorough), in both macro attribution modes and for bytes-per-line 1..16 (also lines and macros that emit into two segments, layouts in descending address order, a macro with an error in one intermediate pass): the source map must attribute exactly the target ranges of each statement's bytes to spans inside that statement (or its invocation), and the listing must show per source line exactly those bytes in emission order with correct row addresses, each line once; both look-ups of the source map (address -> entry, line -> entries) must agree with its entries. Imports (5 file bodies x plain / namespace x position; imported twice with different parameters; into two segments) are decided differentially: listing and source map of main.asm + imported file against the single-file twin in which the import is replaced by a scope holding the file's text (the twin lies in the certified space).",
         "Row contiguity is not demanded (a row carries its first address only); for imports the statement-level attribution is inherited from the twin."),
}

NOT_YET = {
}

def hook_commits():
    try:
        out = subprocess.run(["git", "-C", "/repo", "log", "--format=%h %s"], capture_output=True, text=True).stdout
    except Exception:
        return []
    return [l.split()[0] for l in out.splitlines() if "verif hook" in l]

def main():
    props = [json.loads(l) for l in open(os.path.join(ROOT, "properties.jsonl"))]
    checks = []
    na = []
    for p in props:
        pid = p["id"]
        if pid in CHECKS:
            cat, tech, ref, text, note = CHECKS[pid]
            checks.append({
                "property_id": pid,
                "quick_cmd": f"./check {pid} --tier quick",
                "thorough_cmd": f"./check {pid} --tier thorough",
                "evidence_file": f"/verif/evidence/{pid}.json",
                "replay_cmd_template": f"./check {pid} --replay {{path}}",
                "engine": "mosverif",
                "level_claimed": {"category": cat, "text": text, "design_ref": ref},
                "level_note": note,
                "technique": tech,
            })
        else:
            na.append({"property_id": pid, "reason": NOT_YET.get(pid, "engine not built yet in this round (design in DESIGN.md §4); not claimed until its check exists")})
    m = {
        "version": 1,
        "setup_cmd": "./setup.sh",
        "hooks": {
            "guard": "--cfg mos_verif",
            "enable": "harness/.cargo/config.toml sets rustflags = [\"--cfg\", \"mos_verif\"]; mos-core is a path dependency of the harness and the mos binary crate's modules are re-compiled inside it through #[path], so every check rebuilds from /repo's working tree with hooks on. The real `mos` executable used by process-level checks is built with the guard off.",
            "baseline_off_cmd": "cd /repo && cargo nextest run --workspace --no-fail-fast --offline",
            "source_commits": hook_commits(),
            "add_only": True,
        },
        "engines": [
            {"name": "mosverif", "path": "/verif/harness", "serves_properties": sorted(CHECKS.keys()),
             "kind_free_text": "Rust workspace: mvlib (grammar with trivia slots, ISA model, findings/evidence plumbing), mvcore (bounded-exhaustive enumeration engines on mos-core), mvbin (LSP/DAP/test-runner engines: explicit-state search and controlled-scheduler exploration on the real handlers)"},
        ],
        "checks": checks,
        "not_applicable": na,
        "notes": "All checks: exit 0 held / 1 VIOLATION / >=2 machinery failure. KNOWN_FINDINGS.txt lists known and fixed findings; see DESIGN.md.",
    }
    json.dump(m, open(os.path.join(ROOT, "MANIFEST.json"), "w"), indent=1)
    print("checks:", len(checks), "not_applicable:", len(na))

if __name__ == "__main__":
    main()
