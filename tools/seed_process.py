#!/usr/bin/env python3
"""tools/seed_process.py <PROPERTY_ID> [extra check ids...]

Takes what a seed sub-agent left in /tmp/seed-<ID>-out (patch<i>.diff, demo<i>.*, meta<i>.json),
confirms each change in the scratch worktree /tmp/seed-<ID> (tests pass with the change, the
demonstration fails with it and passes without it), evaluates it against the checks (applied to
/repo, reverted straight afterwards) and, when confirmed, stores it under /verif/seeded/<ID>-<i>/.
"""
import json, os, shutil, subprocess, sys, glob

def run(cmd, **kw):
    return subprocess.run(cmd, shell=True, capture_output=True, text=True, **kw)

def main():
    args = [a for a in sys.argv[1:] if not a.startswith("--")]
    confirm_only = "--confirm-only" in sys.argv
    pid = args[0]
    extra = args[1:]
    prefix = os.environ.get("SEED_PREFIX", "seed")
    out = f"/tmp/{prefix}-{pid}-out"
    wt = f"/tmp/{prefix}-{pid}"
    for meta_path in sorted(glob.glob(f"{out}/meta*.json")):
        i = os.path.basename(meta_path)[4:-5]
        patch = f"{out}/patch{i}.diff"
        if not os.path.exists(patch):
            print(f"{pid}-{i}: no patch"); continue
        meta = json.load(open(meta_path))
        demo = meta.get("demo", "")
        # the demo command is written for "a checkout at a given path": run it with the worktree as argument/cwd
        demos = sorted(glob.glob(f"{out}/demo{i}.*"))
        if not demos:
            print(f"{pid}-{i}: no demo"); continue
        d = demos[0]
        if d.endswith(".sh"):
            demo_cmd = f"bash {d} {wt}"
        elif d.endswith(".py"):
            demo_cmd = f"python3 {d} {wt}"
        else:
            demo_cmd = demo
        marker = f"{out}/confirmed{i}.txt"
        if os.path.exists(marker):
            confirmed = open(marker).read().strip() == "CONFIRMED"
            c = subprocess.CompletedProcess([], 0, stdout="CONFIRM: (cached)\n", stderr="")
        else:
            c = run(f"/verif/tools/seed_confirm.sh {wt} {patch} {demo_cmd}", cwd=wt)
            confirmed = "CONFIRMED" in c.stdout and "NOT CONFIRMED" not in c.stdout
            open(marker, "w").write("CONFIRMED" if confirmed else "NOT CONFIRMED\n" + c.stdout[-2000:])
        print(f"{pid}-{i}: confirm -> {'CONFIRMED' if confirmed else 'NOT CONFIRMED'} :: " + " | ".join(l for l in c.stdout.splitlines() if l.startswith('CONFIRM:')))
        if not confirmed:
            # try the literal demo command from the meta file
            if demo and demo != demo_cmd:
                c = run(f"/verif/tools/seed_confirm.sh {wt} {patch} {demo}", cwd=wt)
                confirmed = "CONFIRMED" in c.stdout and "NOT CONFIRMED" not in c.stdout
                print(f"{pid}-{i}: confirm (meta demo) -> {confirmed}")
        if not confirmed or confirm_only:
            continue
        checks = [pid] + [e for e in extra if e != pid]
        e = run(f"/verif/tools/seed_eval.sh {patch} {' '.join(checks)}")
        results = {}
        for line in e.stdout.splitlines():
            if line.startswith("EVAL: C"):
                parts = line.split()
                results[parts[1]] = {"exit": int(parts[2].split('=')[1]), "violations": int(parts[3].split('=')[1]), "first": " ".join(parts[4:])}
        print(f"{pid}-{i}: eval -> " + ", ".join(f"{k}:exit{v['exit']}/{v['violations']}" for k, v in results.items()) + ("" if results else e.stdout[-300:]))
        dest = f"/verif/seeded/{pid}-{i}"
        os.makedirs(dest, exist_ok=True)
        shutil.copy(patch, f"{dest}/patch.diff")
        for dfile in glob.glob(f"{out}/demo{i}*"):
            if os.path.isdir(dfile):
                shutil.copytree(dfile, f"{dest}/{os.path.basename(dfile)}", dirs_exist_ok=True)
            else:
                shutil.copy(dfile, dest)
        meta.update({
            "confirmed_by": "tools/seed_confirm.sh in the scratch worktree: 209 repository tests pass with the change; the demonstration fails with it and passes without it",
            "checks_run": results,
            "caught_by": [k for k, v in results.items() if v["exit"] == 1],
            "repo_head": run("git -C /repo log --format=%h -1").stdout.strip(),
        })
        json.dump(meta, open(f"{dest}/meta.json", "w"), indent=1)

if __name__ == "__main__":
    main()
