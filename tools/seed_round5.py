#!/usr/bin/env python3
"""tools/seed_round5.py <PROPERTY_ID>...

Fifth round (one change per property, prefix s5, stored as <ID>-9): confirms what the sub-agent left
in /tmp/s5-<ID>-out in its scratch worktree /tmp/s5-<ID> (tools/seed_confirm.sh), evaluates the
change against the quick check of its own property on /repo itself (tools/seed_eval.sh: applied,
checked, reverted straight afterwards) and stores it under /verif/seeded/<ID>-9/.
Appends one line per change to seeded/FIFTH_ROUND.txt.
"""
import glob, json, os, re, shutil, subprocess, sys


def run(cmd, **kw):
    return subprocess.run(cmd, shell=True, capture_output=True, text=True, **kw)


def main():
    heads = {k: run(f"git -C {p} log --format=%h -1").stdout.strip() for k, p in (("repo_head", "/repo"), ("verif_head", "/verif"))}
    for pid in sys.argv[1:]:
        out, wt = f"/tmp/s5-{pid}-out", f"/tmp/s5-{pid}"
        patch, meta_path = f"{out}/patch1.diff", f"{out}/meta1.json"
        demos = sorted(glob.glob(f"{out}/demo1.*"))
        if not (os.path.exists(patch) and os.path.exists(meta_path) and demos):
            print(f"{pid}-9: incomplete delivery"); continue
        meta = json.load(open(meta_path))
        d = demos[0]
        demo_cmd = (f"bash {d} {wt}" if d.endswith(".sh") else f"python3 {d} {wt}")
        log = f"{out}/confirm.log"  # a confirmation already run (in parallel, each in its own worktree) is reused
        if os.path.exists(log) and "CONFIRMED" in open(log).read():
            c = subprocess.CompletedProcess([], 0, stdout=open(log).read(), stderr="")
        else:
            c = run(f"/verif/tools/seed_confirm.sh {wt} {patch} {demo_cmd}", cwd=wt)
        confirmed = "CONFIRMED" in c.stdout and "NOT CONFIRMED" not in c.stdout
        print(f"{pid}-9: " + " | ".join(l for l in c.stdout.splitlines() if l.startswith("CONFIRM")))
        if not confirmed:
            continue
        e = run(f"/verif/tools/seed_eval.sh {patch} {pid}")
        m = re.search(rf"EVAL: {pid} exit=(\d+) violations=(\d+)(.*)", e.stdout)
        if not m:
            print(f"{pid}-9: evaluation failed: {e.stdout[-300:]} {e.stderr[-300:]}"); continue
        rc, nv = int(m.group(1)), int(m.group(2))
        line = f"{pid}-9: {pid}=exit{rc}/{nv}" if rc else f"{pid}-9:"
        open("/verif/seeded/FIFTH_ROUND.txt", "a").write(line + "\n")
        print("EVAL " + line + m.group(3)[:200])
        dst = f"/verif/seeded/{pid}-9"
        os.makedirs(dst, exist_ok=True)
        shutil.copy(patch, f"{dst}/patch.diff")
        for f in glob.glob(f"{out}/*"):
            b = os.path.basename(f)
            if b in ("patch1.diff", "meta1.json") or b.startswith("confirm") or os.path.isdir(f) and b == "target":
                continue
            if os.path.isdir(f):
                shutil.copytree(f, f"{dst}/{b}", dirs_exist_ok=True, ignore=shutil.ignore_patterns("target"))
            elif os.path.getsize(f) < 200000:
                shutil.copy(f, f"{dst}/{b}")
        caught = rc == 1 and nv > 0
        meta.update({
            "author": "independent sub-agent that was given the text of the property and a scratch worktree of /repo only",
            "confirmed_by": "tools/seed_confirm.sh in the scratch worktree: the 209 repository tests pass with the change; the demonstration fails with it and passes without it",
            "how_to_run_checks_against_it": f"git -C /repo apply /verif/seeded/{pid}-9/patch.diff && (cd /verif && ./check {pid} --tier quick); git -C /repo checkout -- .",
            "first_round": {"alarmed": [pid] if caught else [], "own_property_check_alarmed": caught,
                            "detail": {pid: {"exit": rc, "violations": nv}}, **heads},
        })
        json.dump(meta, open(f"{dst}/meta.json", "w"), indent=1)


if __name__ == "__main__":
    main()
