#!/bin/bash
# tools/seed_eval.sh <patch.diff> <check id>...  – applies a seeded change to /repo, runs the
# given checks (quick tier), and reverts /repo immediately afterwards. Prints one line per check.
set -u
PATCH="$1"; shift
cd /repo || exit 2
if [ -n "$(git status --porcelain --untracked-files=no)" ]; then echo "EVAL: /repo is dirty"; exit 2; fi
git apply "$PATCH" || { echo "EVAL: patch does not apply to /repo HEAD"; exit 2; }
for id in "$@"; do
  out=$(cd /verif && VERIF_ROOT=/verif ./check "$id" --tier "${SEED_TIER:-quick}" 2>&1); rc=$?
  nv=$(echo "$out" | grep -c "^VIOLATION")
  first=$(echo "$out" | grep "^VIOLATION" | head -2 | sed 's/.*replay=.*replays\///' | tr '\n' ' ')
  echo "EVAL: $id exit=$rc violations=$nv $first"
done
git -C /repo checkout -q -- .
# evidence files and replays were rewritten by the seeded runs: restore the committed ones
git -C /verif checkout -q -- evidence replays 2>/dev/null
git -C /verif clean -fdq replays evidence 2>/dev/null
