#!/bin/bash
# tools/seed_confirm.sh <worktree> <patch.diff> <demo command...>
# Confirms a seeded change in a scratch worktree: applies the patch, runs the repository's test
# suite (must pass), runs the demonstration (must FAIL), reverts, runs it again (must PASS).
set -u
WT="$1"; PATCH="$2"; shift 2
cd "$WT" || exit 2
git checkout -q -- . && git clean -fdq -e target
git apply "$PATCH" || { echo "CONFIRM: patch does not apply"; exit 2; }
for i in 1 2 3; do
  out=$(cargo nextest run --workspace --no-fail-fast --offline 2>&1 | grep -E "Summary|FAIL" )
  if echo "$out" | grep -q "209 passed"; then tests=pass; break; fi
  # the vice::stop_resume test is timing-flaky under load: retry
  if echo "$out" | grep FAIL | grep -vq "stop_resume"; then tests=fail; break; fi
  tests=flaky
done
echo "CONFIRM: tests with patch: $tests"
( "$@" ) > /tmp/seed_demo_with.log 2>&1; with=$?
git checkout -q -- . && git clean -fdq -e target
( "$@" ) > /tmp/seed_demo_without.log 2>&1; without=$?
echo "CONFIRM: demo exit with patch=$with without patch=$without"
if [ "$tests" = pass ] && [ $with -ne 0 ] && [ $without -eq 0 ]; then echo "CONFIRMED"; exit 0; else echo "NOT CONFIRMED"; exit 1; fi
