#!/usr/bin/env python3
"""tools/gen_floor.py [quick|thorough]   (default: whatever tier each evidence file was written by)

Records the coverage of the current evidence files as the reference ("floor") of their tier in
/verif/COVERAGE_FLOOR.json. Run by hand after a complete clean run of a tier on the unchanged tree;
the checks only read the file (a run with less than 90 % of the reference says so in caps_hit)."""
import json, glob, os, sys

ROOT = os.path.dirname(os.path.dirname(os.path.abspath(__file__)))
path = os.path.join(ROOT, "COVERAGE_FLOOR.json")
floor = json.load(open(path)) if os.path.exists(path) else {}
want = sys.argv[1] if len(sys.argv) > 1 else None
for f in sorted(glob.glob(os.path.join(ROOT, "evidence", "C??.json"))):
    e = json.load(open(f))
    if want and e["tier"] != want:
        continue
    if e["violations"]:
        print("skipped (violations):", f)
        continue
    c = e["coverage"]
    floor.setdefault(e["property_id"], {})[e["tier"]] = {
        "evaluations": c["evaluations"], "distinct_nontrivial": c["distinct_nontrivial"]}
json.dump(floor, open(path, "w"), indent=1, sort_keys=True)
print("recorded:", {k: sorted(v) for k, v in floor.items()})
